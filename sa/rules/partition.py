"""Symbolic positions inside a partition loop.

A loop that cuts a sequence into consecutive blocks walks over the chunk sizes n_0, n_1, ...  Inside pass k

    Σ  (PREFIX)   the number of members in the blocks before k:  Σ_{j<k} n_j
    n  (SIZE)     the size of block k
    k  (INDEX)    the block number

`PartitionEval(f, loop)` recognises how the loop's variables are bound to these three quantities and evaluates
any expression of the loop body to a polynomial over the atoms Σ, n, k (and whatever else it mentions):

  loop forms
    for [k,] (a, b) in [enumerate(] zip(cumsum((0,) + C), cumsum(C)) [)]      a = Σ, b = Σ + n
    for [k,] (a, n) in [enumerate(] zip((0,) + cumsum(C), C) [)]              a = Σ, n = n
    for [k,] (a, b) in [enumerate(] chunk_ranges(C)[i] [)]                     a = Σ, b = Σ + n
    for [k,] n in [enumerate(] C [)]                                          n = n
  running offsets
    a variable v assigned a constant v0 before the loop and re-assigned exactly once per pass (`v = e` / `v += e`)
    is an induction variable; if v0 == 0 and its update evaluates to v + n it is Σ before the update and Σ + n
    after it.  Any other update makes v an opaque atom `v@loop` (the rule using the evaluator then reports that the
    block start is not the running sum of the sizes).
  locals defined in the body are inlined (single reaching definition).

A block is the k-th of a partition of X iff it is X[Σ : Σ + n] (and sequences sliced in parallel use the same
bounds).  `i * C[0]`, `k`, `Σ + 1` ... are all different polynomials, so a wrong start is visible as a term
difference, not as a pattern mismatch.
"""
from __future__ import annotations

import ast
from typing import Optional

from ..cfg import DataFlow
from ..model import AnalysisError, FuncInfo, call_name, dotted, last_attr, norm_text, walk_no_nested
from ..terms import FlowNormalizer, Poly

PREFIX, SIZE, INDEX = "Σ", "n", "k"


def _strip_seq(e: ast.AST) -> ast.AST:
    while isinstance(e, ast.Call) and dotted(e.func) in ("tuple", "list", "np.array", "np.asarray") and len(e.args) == 1:
        e = e.args[0]
    return e


def _is_zero_tuple(e: ast.AST) -> bool:
    return isinstance(e, (ast.Tuple, ast.List)) and len(e.elts) == 1 and isinstance(e.elts[0], ast.Constant) \
        and e.elts[0].value == 0 and not isinstance(e.elts[0].value, bool)


class PartitionEval:
    def __init__(self, f: FuncInfo, loop: ast.For, df: Optional[DataFlow] = None):
        self.f, self.loop = f, loop
        self.df = df or DataFlow(f.node)
        self.header = self.df.cfg.node_of(loop).idx
        self.bind: dict[str, Poly] = {}
        self.sizes: Optional[str] = None  # normalised text of the chunk-size sequence C
        self.form = self._bind_targets()
        self._induction: dict[str, Optional[tuple[int, Poly]]] = {}

    # ------------------------------------------------------------------ loop header
    def _follow(self, e: ast.AST) -> ast.AST:
        e = _strip_seq(e)
        hops = 0
        while isinstance(e, ast.Name) and hops < 8:
            d = self.df.single_def(self.header, e.id)
            if d is None or d.kind != "assign" or d.value is None:
                break
            st = self.df.cfg.nodes[d.node].ast
            if not (isinstance(st, ast.Assign) and any(isinstance(t, ast.Name) and t.id == e.id for t in st.targets)):
                break
            e, hops = _strip_seq(d.value), hops + 1
        return e

    def _kind(self, e: ast.AST) -> Optional[tuple[str, str]]:
        """('excl'|'incl'|'size', key of C) for one zip operand."""
        e0 = _strip_seq(e)
        e = self._follow(e0)
        if isinstance(e, ast.Call) and last_attr(e) in ("cumsum", "accumulate") and len(e.args) == 1:
            x = _strip_seq(e.args[0])
            if isinstance(x, ast.BinOp) and isinstance(x.op, ast.Add) and _is_zero_tuple(x.left):
                return "excl", norm_text(_strip_seq(x.right))
            return "incl", norm_text(x)
        if isinstance(e, ast.BinOp) and isinstance(e.op, ast.Add) and _is_zero_tuple(e.left):
            inner = self._follow(e.right)
            if isinstance(inner, ast.Call) and last_attr(inner) in ("cumsum", "accumulate") and len(inner.args) == 1:
                return "excl", norm_text(_strip_seq(inner.args[0]))
            return None
        return "size", norm_text(e0)

    def _bind_targets(self) -> Optional[str]:
        tgt, it = self.loop.target, self.loop.iter
        if isinstance(it, ast.Call) and call_name(it) == "enumerate" and it.args:
            it = it.args[0]
            if isinstance(tgt, ast.Tuple) and len(tgt.elts) == 2 and isinstance(tgt.elts[0], ast.Name):
                self.bind[tgt.elts[0].id] = Poly.atom(INDEX)
                tgt = tgt.elts[1]
            else:
                return None
        S, N = Poly.atom(PREFIX), Poly.atom(SIZE)
        if isinstance(tgt, ast.Tuple) and len(tgt.elts) == 2 and all(isinstance(e, ast.Name) for e in tgt.elts):
            a, b = tgt.elts[0].id, tgt.elts[1].id
            if "chunk_ranges(" in ast.unparse(it):
                self.bind[a], self.bind[b] = S, S + N
                self.sizes = norm_text(it)
                return "ranges"
            if isinstance(it, ast.Call) and call_name(it) == "zip" and len(it.args) == 2:
                ka, kb = self._kind(it.args[0]), self._kind(it.args[1])
                if ka is None or kb is None:
                    return None
                val = {"excl": S, "incl": S + N, "size": N}
                # both operands must run over the same size sequence; a 'size' operand *is* the sequence
                seqs = {ka[1], kb[1]}
                self.bind[a], self.bind[b] = val[ka[0]], val[kb[0]]
                if len(seqs) != 1:
                    # different sequences: the bound variables are unrelated positions
                    self.bind[b] = Poly.atom(f"{b}@{kb[0]}({kb[1]})")
                self.sizes = ka[1]
                return "zip"
            return None
        if isinstance(tgt, ast.Name):
            self.bind[tgt.id] = N
            self.sizes = norm_text(_strip_seq(it))
            return "sizes"
        return None

    @property
    def recognised(self) -> bool:
        return self.form is not None

    # ------------------------------------------------------------------ induction variables
    def _induction_value(self, name: str) -> Optional[tuple[int, Poly]]:
        """(node of the per-pass update, value *before* the update) for a running offset, else None."""
        if name in self._induction:
            return self._induction[name]
        self._induction[name] = None
        body = self.df.cfg.loop_body_nodes(self.header)
        defs = [d for d in self.df.defs if d.var == name]
        inside = [d for d in defs if d.node in body]
        outside = [d for d in self.df.reaching(self.header, name) if d.node not in body]
        if len(inside) != 1 or not outside:
            return None
        upd = inside[0]
        st = self.df.cfg.nodes[upd.node].ast
        init_ok = all(d.kind == "assign" and isinstance(d.value, ast.Constant) and d.value.value == 0
                      and not isinstance(d.value.value, bool) for d in outside)
        if isinstance(st, ast.AugAssign) and isinstance(st.op, ast.Add):
            delta = self.eval(st.value, upd.node)
            new = Poly.atom(PREFIX) + delta
        elif isinstance(st, ast.Assign) and upd.value is not None:
            self._induction[name] = (upd.node, Poly.atom(PREFIX))  # provisional, for self-reference
            new = self.eval(upd.value, upd.node)
        else:
            self._induction[name] = None
            return None
        if init_ok and new == Poly.atom(PREFIX) + Poly.atom(SIZE):
            self._induction[name] = (upd.node, Poly.atom(PREFIX))
        else:
            self._induction[name] = (upd.node, Poly.atom(f"{name}@loop"))
        return self._induction[name]

    # ------------------------------------------------------------------ evaluation
    def eval(self, e: ast.AST, at: int) -> Poly:
        ev = self

        class NZ(FlowNormalizer):
            def _name(self, name: str) -> Poly:
                here = self._at[-1]
                if name in ev.bind and not ev._redefined(name, here):
                    return ev.bind[name]
                if ev._is_carried(name, here):
                    iv = ev._induction_value(name)
                    if iv is None:
                        return Poly.atom(f"{name}@loop")
                    upd_node, before = iv
                    st = ev.df.cfg.nodes[upd_node].ast
                    if isinstance(st, ast.AugAssign) and here != upd_node and ev.df.cfg.dominates(upd_node, here):
                        return before + ev.eval(st.value, upd_node)  # weak def: the use is after `v += e`
                    return before
                return super()._name(name)

        return NZ(self.df, at).norm(e)

    def _redefined(self, name: str, at: int) -> bool:
        body = self.df.cfg.loop_body_nodes(self.header)
        return any(d.node in body and d.node != self.header for d in self.df.reaching(at, name))

    def _is_carried(self, name: str, at: int) -> bool:
        """`name` at node `at` may hold the value from before the loop *or* from the previous pass."""
        body = self.df.cfg.loop_body_nodes(self.header)
        rd = self.df.reaching(at, name)
        return any(d.node in body for d in rd) and any(d.node not in body for d in rd)

    # ------------------------------------------------------------------ slices of the body
    def position_slices(self) -> list[tuple[ast.Subscript, int, Optional[Poly], Optional[Poly]]]:
        """Every `X[lo:hi]` (Load) of the loop body whose bounds depend on the position (Σ, n, k or a running
        offset): (node, cfg node, lo, hi)."""
        out = []
        for node_idx in sorted(self.df.cfg.loop_body_nodes(self.header)):
            node = self.df.cfg.nodes[node_idx]
            if node.ast is None or node.kind not in ("stmt", "test", "loop"):
                continue
            roots = [node.ast.iter] if node.kind == "loop" else [node.ast.test] if node.kind == "test" else [node.ast]
            for root in roots:
                for s in walk_no_nested(root):
                    if isinstance(s, ast.Subscript) and isinstance(s.slice, ast.Slice) and isinstance(s.ctx, ast.Load):
                        lo = self.eval(s.slice.lower, node_idx) if s.slice.lower is not None else None
                        hi = self.eval(s.slice.upper, node_idx) if s.slice.upper is not None else None
                        atoms = set()
                        for p in (lo, hi):
                            if p is not None:
                                atoms |= set(p.atoms())
                        if atoms & {PREFIX, SIZE, INDEX} or any(a.endswith("@loop") for a in atoms):
                            out.append((s, node_idx, lo, hi))
        return out


def find_loops(f: FuncInfo, df: Optional[DataFlow] = None) -> list[PartitionEval]:
    df = df or DataFlow(f.node)
    out = []
    for l in walk_no_nested(f.node):
        if isinstance(l, ast.For):
            pe = PartitionEval(f, l, df)
            if pe.recognised:
                out.append(pe)
    return out
