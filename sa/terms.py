"""E3 — term normal form: expressions -> multivariate Laurent polynomials over Q in opaque atoms.

Value numbering over a commutative-ring normal form.  No path conditions, no solver: a name with
more than one reaching definition is an opaque atom.  Equality of terms = identical normal forms.
"""
from __future__ import annotations

import ast
from fractions import Fraction
from typing import Callable, Optional

from .model import dotted


def call_name_of(n):
    return dotted(n.func) if isinstance(n, ast.Call) else None

Mono = tuple  # tuple of (atom:str, exp:Fraction) sorted by atom


class Poly:
    """Sum of coeff * monomial; monomial = sorted tuple of (atom, exponent)."""

    __slots__ = ("terms",)

    def __init__(self, terms: Optional[dict] = None):
        self.terms: dict[Mono, Fraction] = {k: v for k, v in (terms or {}).items() if v != 0}

    # constructors
    @staticmethod
    def const(c) -> "Poly":
        return Poly({(): Fraction(c)})

    @staticmethod
    def atom(name: str) -> "Poly":
        return Poly({((name, Fraction(1)),): Fraction(1)})

    # predicates
    def is_const(self) -> bool:
        return all(k == () for k in self.terms)

    def const_value(self) -> Optional[Fraction]:
        if not self.terms:
            return Fraction(0)
        if self.is_const():
            return self.terms[()]
        return None

    def is_monomial(self) -> bool:
        return len(self.terms) == 1

    def is_zero(self) -> bool:
        return not self.terms

    def atoms(self) -> set[str]:
        return {a for m in self.terms for a, _ in m}

    # arithmetic
    def __add__(self, o: "Poly") -> "Poly":
        t = dict(self.terms)
        for k, v in o.terms.items():
            t[k] = t.get(k, Fraction(0)) + v
        return Poly(t)

    def __neg__(self) -> "Poly":
        return Poly({k: -v for k, v in self.terms.items()})

    def __sub__(self, o: "Poly") -> "Poly":
        return self + (-o)

    def __mul__(self, o: "Poly") -> "Poly":
        t: dict[Mono, Fraction] = {}
        for k1, v1 in self.terms.items():
            for k2, v2 in o.terms.items():
                k = _mono_mul(k1, k2)
                t[k] = t.get(k, Fraction(0)) + v1 * v2
        return Poly(t)

    def inverse(self) -> "Poly":
        if self.is_monomial():
            (k, v), = self.terms.items()
            return Poly({tuple((a, -e) for a, e in k): 1 / v})
        # factor out the content so that (2a+2b)^-1 == 1/2 (a+b)^-1
        c = _content(self)
        prim = Poly({k: v / c for k, v in self.terms.items()})
        return Poly({(("(" + prim.key() + ")", Fraction(-1)),): 1 / c})

    def power(self, e: Fraction) -> "Poly":
        if e.denominator == 1 and 0 <= e.numerator <= 8:
            r = Poly.const(1)
            for _ in range(e.numerator):
                r = r * self
            return r
        if e.denominator == 1 and -8 <= e.numerator < 0:
            return self.power(-e).inverse() if self.is_monomial() else self.inverse().power(-e)
        if self.is_monomial():
            (k, v), = self.terms.items()
            cv = _frac_pow(v, e)
            if cv is not None:
                return Poly({tuple((a, x * e) for a, x in k): cv})
            return Poly({_mono_mul(tuple((a, x * e) for a, x in k), ((f"{v}", e),)): Fraction(1)})
        c = _content(self)
        prim = Poly({k: v / c for k, v in self.terms.items()})
        cv = _frac_pow(c, e)
        base = Poly({(("(" + prim.key() + ")", e),): Fraction(1)})
        if cv is not None:
            return base * Poly.const(cv)
        return base * Poly({((f"{c}", e),): Fraction(1)})

    def key(self) -> str:
        parts = []
        for k in sorted(self.terms, key=lambda m: [(a, float(e)) for a, e in m]):
            v = self.terms[k]
            mono = "*".join(a if e == 1 else f"{a}^{e}" for a, e in k)
            parts.append(f"{v}" + ("*" + mono if mono else ""))
        return " + ".join(parts) if parts else "0"

    def __eq__(self, o) -> bool:
        return isinstance(o, Poly) and self.terms == o.terms

    def __hash__(self):
        return hash(self.key())

    def __repr__(self) -> str:
        return f"Poly<{self.key()}>"

    def subst(self, mapping: dict[str, "Poly"]) -> "Poly":
        """Substitute atoms (exact atom-name match) by polynomials (integer exponents only)."""
        out = Poly()
        for k, v in self.terms.items():
            t = Poly.const(v)
            for a, e in k:
                base = mapping.get(a, Poly.atom(a))
                t = t * base.power(e)
            out = out + t
        return out

    def has_factor_atom(self, pred: Callable[[str], bool]) -> bool:
        """Every monomial contains (with positive exponent) an atom satisfying pred."""
        return bool(self.terms) and all(any(pred(a) and e > 0 for a, e in m) for m in self.terms)


def _content(p: Poly) -> Fraction:
    # leading coefficient by canonical order -> makes the primitive part unique up to nothing
    k = sorted(p.terms, key=lambda m: [(a, float(e)) for a, e in m])[0]
    return p.terms[k]


def _frac_pow(v: Fraction, e: Fraction) -> Optional[Fraction]:
    if e.denominator == 1:
        return v ** e.numerator
    if v < 0:
        return None

    def root(n: int, d: int) -> Optional[int]:
        r = round(n ** (1.0 / d))
        for c in (r - 1, r, r + 1):
            if c >= 0 and c ** d == n:
                return c
        return None

    rn, rd = root(v.numerator, e.denominator), root(v.denominator, e.denominator)
    if rn is None or rd is None:
        return None
    return Fraction(rn, rd) ** e.numerator


def _mono_mul(a: Mono, b: Mono) -> Mono:
    d: dict[str, Fraction] = {}
    for x, e in a + b:
        d[x] = d.get(x, Fraction(0)) + e
    return tuple(sorted((x, e) for x, e in d.items() if e != 0))


PI = "π"

IDENTITY_CALLS = {"float", "np.asarray", "xp.asarray", "np.array", "xp.array", "np.float32", "np.float64",
                  "asarray", "np.ascontiguousarray"}
# the same casts under any array-module alias (xp = get_array_module(...), cp, ...)
IDENTITY_SHORT = {"asarray", "array", "ascontiguousarray", "float32", "float64", "asanyarray"}
ARRAY_MODULE_NAMES = {"np", "xp", "cp", "da", "numpy", "cupy", "math", "scipy"}


def is_array_module(name: str) -> bool:
    """np / xp / cp / ... or a renamed local of the same role (xp_r, xp2)."""
    return name in ARRAY_MODULE_NAMES or name.startswith("xp")


class Normalizer:
    """Expression -> Poly.  `resolve(name)` may return an ast.expr to inline for a Name/`self.x`
    (single reaching definition) or None to keep the name as an atom."""

    def __init__(self, resolve: Optional[Callable[[str], Optional[ast.expr]]] = None,
                 atom_alias: Optional[dict[str, str]] = None,
                 identity_calls: Optional[set[str]] = None,
                 call_hook: Optional[Callable[["Normalizer", ast.Call], Optional[Poly]]] = None):
        self.resolve = resolve or (lambda n: None)
        self.alias = atom_alias or {}
        self.identity_calls = IDENTITY_CALLS | (identity_calls or set())
        self.call_hook = call_hook
        self._stack: list[str] = []
        self.flags: set[str] = set()

    def atom(self, name: str) -> Poly:
        return Poly.atom(self.alias.get(name, name))

    def _is_module_local(self, name: str) -> bool:
        """Overridden by flow-aware normalisers: is `name` a local bound to get_array_module(...)?"""
        return False

    def norm(self, n: ast.AST) -> Poly:
        if isinstance(n, ast.Constant):
            if isinstance(n.value, bool):
                return Poly.const(int(n.value))
            if isinstance(n.value, int):
                return Poly.const(n.value)
            if isinstance(n.value, float):
                return Poly.const(Fraction(repr(n.value)))
            if isinstance(n.value, complex):
                if n.value.real == 0:
                    return Poly.const(Fraction(repr(n.value.imag))) * Poly.atom("𝑖")
                return Poly.atom(repr(n.value))
            return Poly.atom(repr(n.value))
        if isinstance(n, ast.Name):
            return self._name(n.id)
        if isinstance(n, ast.Attribute):
            d = dotted(n)
            if n.attr == "pi":
                return Poly.atom(PI)  # np.pi / xp.pi / math.pi / get_array_module(x).pi under any alias
            if d is not None:
                return self._name(d)
            return Poly.atom(self.opaque(n))
        if isinstance(n, ast.UnaryOp):
            if isinstance(n.op, ast.USub):
                return -self.norm(n.operand)
            if isinstance(n.op, ast.UAdd):
                return self.norm(n.operand)
            return Poly.atom(self.opaque(n))
        if isinstance(n, ast.BinOp):
            if isinstance(n.op, ast.Add):
                return self.norm(n.left) + self.norm(n.right)
            if isinstance(n.op, ast.Sub):
                return self.norm(n.left) - self.norm(n.right)
            if isinstance(n.op, ast.Mult):
                return self.norm(n.left) * self.norm(n.right)
            if isinstance(n.op, ast.Div):
                return self.norm(n.left) * self.norm(n.right).inverse()
            if isinstance(n.op, ast.Pow):
                e = self.norm(n.right).const_value()
                if e is not None:
                    return self.norm(n.left).power(e)
                return Poly.atom(f"pow({self.norm(n.left).key()},{self.norm(n.right).key()})")
            return Poly.atom(self.opaque(n))
        if isinstance(n, ast.Call):
            return self._call(n)
        if isinstance(n, ast.Subscript):
            base = self.norm(n.value)
            return Poly.atom(f"{base.key()}[{self._slice_key(n.slice)}]")
        if isinstance(n, ast.IfExp):
            return Poly.atom(self.opaque(n))
        return Poly.atom(self.opaque(n))

    def _slice_key(self, s: ast.AST) -> str:
        if isinstance(s, ast.Slice):
            f = lambda x: self.norm(x).key() if x is not None else ""
            return f"{f(s.lower)}:{f(s.upper)}:{f(s.step)}"
        if isinstance(s, ast.Tuple):
            return ",".join(self._slice_key(e) for e in s.elts)
        if isinstance(s, ast.Constant) and s.value is None:
            return "None"
        if isinstance(s, ast.Constant) and s.value is Ellipsis:
            return "..."
        return self.norm(s).key()

    def _name(self, name: str) -> Poly:
        if name in self._stack:
            return self.atom(name)
        r = self.resolve(name)
        if r is None:
            return self.atom(name)
        self._stack.append(name)
        try:
            return self.norm(r)
        finally:
            self._stack.pop()

    def opaque(self, n: ast.AST) -> str:
        """Canonical text of an opaque expression with sub-terms normalised where possible."""
        if isinstance(n, ast.Call):
            fn = dotted(n.func) or self.opaque(n.func)
            if isinstance(n.func, ast.Attribute) and isinstance(n.func.value, ast.Name) and (
                    is_array_module(n.func.value.id) or self._is_module_local(n.func.value.id)):
                fn = "xp." + n.func.attr  # canonical spelling of an array-module function
            args = [self.norm(a).key() for a in n.args if not isinstance(a, ast.Starred)]
            args += [f"*{ast.unparse(a.value)}" for a in n.args if isinstance(a, ast.Starred)]
            kws = sorted(f"{k.arg}={self.norm(k.value).key()}" for k in n.keywords if k.arg)
            return f"{fn}({','.join(args + kws)})"
        if isinstance(n, ast.Attribute):
            return f"{self.opaque(n.value)}.{n.attr}"
        if isinstance(n, ast.Tuple):
            return "(" + ",".join(self.norm(e).key() for e in n.elts) + ")"
        if isinstance(n, ast.List):
            return "[" + ",".join(self.norm(e).key() for e in n.elts) + "]"
        if isinstance(n, ast.BinOp):
            return f"({self.norm(n.left).key()}){type(n.op).__name__}({self.norm(n.right).key()})"
        if isinstance(n, ast.Compare):
            parts = [self.norm(n.left).key()]
            for op, c in zip(n.ops, n.comparators):
                parts.append(type(op).__name__)
                parts.append(self.norm(c).key())
            return "(" + " ".join(parts) + ")"
        if isinstance(n, ast.IfExp):
            return f"ite({self.opaque(n.test) if not isinstance(n.test, ast.Name) else n.test.id},{self.norm(n.body).key()},{self.norm(n.orelse).key()})"
        return " ".join(ast.unparse(n).split())

    def _call(self, n: ast.Call) -> Poly:
        if self.call_hook is not None:
            r = self.call_hook(self, n)
            if r is not None:
                return r
        fn = dotted(n.func)
        short = fn.split(".")[-1] if fn else None
        recv_is_module = isinstance(n.func, ast.Attribute) and isinstance(n.func.value, ast.Name) and (
            is_array_module(n.func.value.id) or self._is_module_local(n.func.value.id))
        if (fn in self.identity_calls or (recv_is_module and short in IDENTITY_SHORT)) and len(n.args) >= 1:
            self.flags.add(f"cast:{fn}")
            return self.norm(n.args[0])
        if isinstance(n.func, ast.Attribute) and n.func.attr == "astype":
            self.flags.add("cast:astype")
            return self.norm(n.func.value)
        if short == "sqrt" and len(n.args) == 1:
            return self.norm(n.args[0]).power(Fraction(1, 2))
        if short == "prod" and len(n.args) == 1 and isinstance(n.args[0], (ast.Tuple, ast.List)) and not n.keywords:
            r = Poly.const(1)
            for e in n.args[0].elts:
                r = r * self.norm(e)
            return r
        if short == "square" and len(n.args) == 1:
            a = self.norm(n.args[0])
            return a * a
        return Poly.atom(self.opaque(n))


def make_resolver(df, node_idx: int, extra: Optional[dict[str, ast.expr]] = None):
    """Resolver that inlines a name when exactly one strong plain-assignment definition reaches
    `node_idx` (flow-insensitive for the inlined RHS: its own names are resolved at the def node)."""
    extra = extra or {}

    def at(idx: int):
        def resolve(name: str) -> Optional[ast.expr]:
            if name in extra:
                return extra[name]
            d = df.single_def(idx, name)
            if d is None or d.kind not in ("assign", "walrus") or d.value is None:
                return None
            return _Bound(d.value, d.node)

        return resolve

    return at(node_idx), at


class _Bound(ast.AST):
    """Marker wrapping an expression together with the CFG node where it is evaluated."""

    _fields = ()

    def __init__(self, expr: ast.AST, node: int):
        self.expr = expr
        self.node = node


class FlowNormalizer(Normalizer):
    """Normalizer that inlines single reaching definitions, re-resolving names at the def node."""

    def __init__(self, df, node_idx: int, **kw):
        super().__init__(**kw)
        self.df = df
        self._at = [node_idx]
        self.extra: dict[str, ast.expr] = {}
        self.no_inline: set[str] = set()

    def _is_module_local(self, name: str) -> bool:
        try:
            d = self.df.single_def(self._at[-1], name)
        except Exception:
            return False
        return d is not None and isinstance(d.value, ast.Call) and (call_name_of(d.value) or "").endswith(
            "get_array_module")

    def _name(self, name: str) -> Poly:
        if name in self.extra:
            return self.norm(self.extra[name])
        if name in self.no_inline:
            return self.atom(name)
        d = self.df.single_def(self._at[-1], name)
        if d is None or d.kind not in ("assign", "walrus") or d.value is None or (d.node, name) in self._stack:
            return self.atom(name)
        # tuple unpacking of a non-tuple RHS cannot be inlined
        st = self.df.cfg.nodes[d.node].ast
        if isinstance(st, ast.Assign) and not any(
            (isinstance(t, ast.Name) and t.id == name) or dotted(t) == name for t in st.targets
        ):
            if not (isinstance(st.targets[0], (ast.Tuple, ast.List)) and isinstance(st.value, (ast.Tuple, ast.List))):
                return self.atom(name)
        self._stack.append((d.node, name))  # type: ignore[arg-type]
        self._at.append(d.node)
        try:
            return self.norm(d.value)
        finally:
            self._at.pop()
            self._stack.pop()


def norm_expr(expr: ast.AST, **kw) -> Poly:
    return Normalizer(**kw).norm(expr)
