"""Generate /verif/MANIFEST.json from sa/registry.py (python3 -m sa.manifest)."""
import json
from pathlib import Path

from .registry import CHECKS, NOT_APPLICABLE

VERIF = Path(__file__).resolve().parent.parent


def main():
    props = [json.loads(l) for l in (VERIF / "properties.jsonl").read_text().splitlines() if l.strip()]
    ids = [p["id"] for p in props]
    checks = []
    for pid in ids:
        if pid not in CHECKS:
            continue
        tech, text, note = CHECKS[pid]
        checks.append({
            "property_id": pid,
            "quick_cmd": f"python3 -m sa.check {pid} --tier quick",
            "thorough_cmd": f"python3 -m sa.check {pid} --tier thorough",
            "evidence_file": f"/verif/evidence/{pid}.json",
            "replay_cmd_template": f"python3 -m sa.check {pid} --replay {{path}}",
            "engine": "sa",
            "level_claimed": {"category": "other", "text": text, "design_ref": f"DESIGN.md section 2, {pid}"},
            "level_note": note,
            "technique": "static analysis: " + tech,
        })
    na = []
    for pid in ids:
        if pid in CHECKS:
            continue
        reason = NOT_APPLICABLE.get(pid, "static check not built yet in this session (planned, see DESIGN.md section 2)")
        na.append({"property_id": pid, "reason": reason})
    manifest = {
        "version": 1,
        "setup_cmd": "true",
        "hooks": {
            "guard": "ABTEM_ABTEM_VERIF",
            "enable": "none needed: the checks read /repo's source and never run it; no hook commits exist",
            "baseline_off_cmd": "cd /repo && /venv/bin/python -m pytest -ra -q -p no:cacheprovider --timeout=900 "
                                "--continue-on-collection-errors",
            "source_commits": [],
            "add_only": True,
        },
        "engines": [{
            "name": "sa",
            "path": "/verif/sa",
            "serves_properties": sorted(CHECKS),
            "kind_free_text": "repository-specific static analysis on the Python ast: source model with C3 MRO and "
                              "executed-constructor chains, statement CFG with dominators, reaching definitions and "
                              "def-use slices, path-sensitive typestate, polynomial term normal form, comparators for "
                              "lazy/eager twins and sibling implementations; abTEM is never imported or executed",
        }],
        "checks": checks,
        "not_applicable": na,
        "notes": "All checks: exit 0 = every rule instance holds on /repo's working tree; exit 1 + VIOLATION line = a "
                 "construct breaks a rule; exit 2 + ANALYSIS-ERROR = an anchor vanished or an unsupported construct "
                 "(never a silent pass). VERIF_REPO=<dir> analyses another checkout. Thorough = quick + mutation "
                 "self-test of the rules on scratch copies under $TMPDIR.",
    }
    (VERIF / "MANIFEST.json").write_text(json.dumps(manifest, indent=1) + "\n")
    print(f"MANIFEST.json: {len(checks)} checks, {len(na)} not_applicable")


if __name__ == "__main__":
    main()
