"""E1/E2 — statement-level CFG, dominators, reaching definitions, def-use slices.

The CFG models the statement kinds the repository uses: if/elif/else, for/while (+else), break,
continue, try/except/else/finally, with, return, raise, assert (raising edge), yield (ordinary
node).  `match`, `async` constructs abort with AnalysisError.  Implicit exceptions are modelled
only inside `try` bodies (every statement of a try body may jump to each handler).
"""
from __future__ import annotations

import ast
from dataclasses import dataclass, field
from typing import Iterable, Optional

from .model import AnalysisError, dotted, walk_no_nested


@dataclass
class Node:
    idx: int
    kind: str  # entry, exit, raise, stmt, test, loop, with, handler, join
    ast: Optional[ast.AST] = None
    succ: list[int] = field(default_factory=list)
    pred: list[int] = field(default_factory=list)
    # for 'test' nodes: label of edges (True/False) -> successor
    tsucc: Optional[int] = None
    fsucc: Optional[int] = None
    loops: tuple[int, ...] = ()  # indices of enclosing loop header nodes (outermost first)

    @property
    def lineno(self) -> int:
        return getattr(self.ast, "lineno", 0)


class CFG:
    def __init__(self, func: ast.FunctionDef):
        self.func = func
        self.nodes: list[Node] = []
        self.entry = self._new("entry").idx
        self.exit = self._new("exit").idx  # normal return
        self.rexit = self._new("raise").idx  # exceptional exit
        self._loop_stack: list[tuple[int, int]] = []  # (header idx, after-loop join idx)
        self._handler_stack: list[list[int]] = []  # handler entry nodes for enclosing try
        self._finally_stack: list[object] = []
        self._cur_loops: list[int] = []
        self._label: dict[int, str] = {}
        self.elabel: dict[tuple[int, int], str] = {}
        body = func.body
        last = self._seq(body, [self.entry])
        for p in last:
            self._edge(p, self.exit)
        self._dom: Optional[dict[int, set[int]]] = None
        self._pdom: Optional[dict[int, set[int]]] = None
        self.stmt_node: dict[int, int] = {}
        for n in self.nodes:
            if n.ast is not None and n.kind in ("stmt", "test", "loop", "with", "handler"):
                self.stmt_node.setdefault(id(n.ast), n.idx)

    # ------------------------------------------------------------------ construction
    def _new(self, kind: str, node: Optional[ast.AST] = None) -> Node:
        n = Node(len(self.nodes), kind, node, loops=tuple(getattr(self, "_cur_loops", [])))
        self.nodes.append(n)
        return n

    def _edge(self, a: int, b: int) -> None:
        if b not in self.nodes[a].succ:
            self.nodes[a].succ.append(b)
            self.nodes[b].pred.append(a)
            if a in self._label:
                self.elabel[(a, b)] = self._label[a]

    def _raise_targets(self) -> list[int]:
        if self._handler_stack:
            return self._handler_stack[-1]
        return [self.rexit]

    def _seq(self, body: Iterable[ast.stmt], preds: list[int]) -> list[int]:
        for st in body:
            preds = self._stmt(st, preds)
        return preds

    def _stmt(self, st: ast.stmt, preds: list[int]) -> list[int]:
        if isinstance(st, (ast.FunctionDef, ast.AsyncFunctionDef, ast.ClassDef)):
            n = self._new("stmt", st)
            for p in preds:
                self._edge(p, n.idx)
            return [n.idx]
        if isinstance(st, ast.If):
            t = self._new("test", st)
            for p in preds:
                self._edge(p, t.idx)
            self._maybe_raise(t.idx)
            self._label[t.idx] = "T"
            out_t = self._seq(st.body, [t.idx])
            self._label[t.idx] = "F"
            out_f = self._seq(st.orelse, [t.idx]) if st.orelse else [t.idx]
            return out_t + [x for x in out_f if x not in out_t]
        if isinstance(st, (ast.For, ast.While)):
            h = self._new("loop", st)
            for p in preds:
                self._edge(p, h.idx)
            self._maybe_raise(h.idx)
            after: list[int] = []
            self._loop_stack.append((h.idx, -1))
            breaks: list[int] = []
            self._breaks_stack = getattr(self, "_breaks_stack", [])
            self._breaks_stack.append(breaks)
            self._cur_loops.append(h.idx)
            self._label[h.idx] = "T"
            out_body = self._seq(st.body, [h.idx])
            self._label[h.idx] = "F"
            self._cur_loops.pop()
            for p in out_body:
                self._edge(p, h.idx)  # back edge
            self._loop_stack.pop()
            self._breaks_stack.pop()
            # loop exit (exhausted / test false) -> else clause
            infinite = isinstance(st, ast.While) and isinstance(st.test, ast.Constant) and bool(st.test.value)
            out_else = [] if infinite else (self._seq(st.orelse, [h.idx]) if st.orelse else [h.idx])
            after = out_else + breaks
            return after
        if isinstance(st, ast.Break):
            n = self._new("stmt", st)
            for p in preds:
                self._edge(p, n.idx)
            self._breaks_stack[-1].append(n.idx)
            return []
        if isinstance(st, ast.Continue):
            n = self._new("stmt", st)
            for p in preds:
                self._edge(p, n.idx)
            self._edge(n.idx, self._loop_stack[-1][0])
            return []
        if isinstance(st, ast.Return):
            n = self._new("stmt", st)
            for p in preds:
                self._edge(p, n.idx)
            self._edge(n.idx, self.exit)
            return []
        if isinstance(st, ast.Raise):
            n = self._new("stmt", st)
            for p in preds:
                self._edge(p, n.idx)
            for t in self._raise_targets():
                self._edge(n.idx, t)
            return []
        if isinstance(st, ast.Assert):
            n = self._new("stmt", st)
            for p in preds:
                self._edge(p, n.idx)
            for t in self._raise_targets():
                self._edge(n.idx, t)
            return [n.idx]
        if isinstance(st, ast.With):
            n = self._new("with", st)
            for p in preds:
                self._edge(p, n.idx)
            self._maybe_raise(n.idx)
            return self._seq(st.body, [n.idx])
        if isinstance(st, ast.Try):
            handlers = [self._new("handler", h) for h in st.handlers]
            hidx = [h.idx for h in handlers]
            # body: every statement may raise into each handler
            self._handler_stack.append(hidx if hidx else self._raise_targets())
            start = len(self.nodes)
            out_body = self._seq(st.body, preds)
            end = len(self.nodes)
            self._handler_stack.pop()
            if hidx:
                for p in preds:
                    for h in hidx:
                        self._edge(p, h)
                        self.elabel[(p, h)] = "X"
                for i in range(start, end):
                    if self.nodes[i].kind in ("stmt", "test", "loop", "with"):
                        for h in hidx:
                            self._edge(i, h)
                            self.elabel[(i, h)] = "X"
            out_else = self._seq(st.orelse, out_body) if st.orelse else out_body
            outs = list(out_else)
            for h, hn in zip(st.handlers, handlers):
                outs += self._seq(h.body, [hn.idx])
            if st.finalbody:
                outs = self._seq(st.finalbody, outs)
            return outs
        if isinstance(st, (ast.Match,)) or type(st).__name__.startswith("Async"):
            raise AnalysisError(f"unsupported statement {type(st).__name__} at line {st.lineno}")
        # simple statement
        n = self._new("stmt", st)
        for p in preds:
            self._edge(p, n.idx)
        self._maybe_raise(n.idx)
        return [n.idx]

    def _maybe_raise(self, idx: int) -> None:
        # implicit exceptions are modelled only inside try bodies (done in the Try case)
        return

    # ------------------------------------------------------------------ queries
    def node_of(self, st: ast.AST) -> Node:
        i = self.stmt_node.get(id(st))
        if i is None:
            raise AnalysisError(f"statement at line {getattr(st, 'lineno', '?')} has no CFG node")
        return self.nodes[i]

    def reachable(self) -> set[int]:
        seen = {self.entry}
        stack = [self.entry]
        while stack:
            for s in self.nodes[stack.pop()].succ:
                if s not in seen:
                    seen.add(s)
                    stack.append(s)
        return seen

    def dominators(self) -> dict[int, set[int]]:
        if self._dom is None:
            self._dom = self._dominators(self.entry, forward=True)
        return self._dom

    def postdominators(self) -> dict[int, set[int]]:
        """Post-dominators w.r.t. the *normal* exit (raising paths are ignored)."""
        if self._pdom is None:
            self._pdom = self._dominators(self.exit, forward=False)
        return self._pdom

    def _dominators(self, root: int, forward: bool) -> dict[int, set[int]]:
        # restrict to nodes reachable from root in the chosen direction
        nxt = (lambda n: self.nodes[n].succ) if forward else (lambda n: self.nodes[n].pred)
        prv = (lambda n: self.nodes[n].pred) if forward else (lambda n: self.nodes[n].succ)
        reach = {root}
        stack = [root]
        while stack:
            for s in nxt(stack.pop()):
                if s not in reach:
                    reach.add(s)
                    stack.append(s)
        dom = {n: set(reach) for n in reach}
        dom[root] = {root}
        changed = True
        order = sorted(reach)
        while changed:
            changed = False
            for n in order:
                if n == root:
                    continue
                ps = [p for p in prv(n) if p in reach]
                new = set.intersection(*[dom[p] for p in ps]) if ps else set()
                new = new | {n}
                if new != dom[n]:
                    dom[n] = new
                    changed = True
        return dom

    def dominates(self, a: int, b: int) -> bool:
        d = self.dominators()
        return b in d and a in d[b]

    def postdominates(self, a: int, b: int) -> bool:
        d = self.postdominators()
        return b in d and a in d[b]

    def paths_avoiding(self, src: int, dst: int, avoid: set[int]) -> bool:
        """Is there a path src ->+ dst that visits no node of `avoid` (endpoints excluded)?"""
        seen: set[int] = set()
        stack = list(self.nodes[src].succ)
        while stack:
            n = stack.pop()
            if n == dst:
                return True
            if n in seen or n in avoid:
                continue
            seen.add(n)
            stack.extend(self.nodes[n].succ)
        return False

    def loop_body_nodes(self, header: int) -> set[int]:
        return {n.idx for n in self.nodes if header in n.loops}


def forward_states(cfg: "CFG", init, transfer, max_states: int = 64) -> dict[int, set]:
    """Path-sensitive forward analysis over a finite abstract domain.

    Every CFG node gets the *set* of abstract states with which some path can arrive at it.
    `transfer(node, state, label, succ_idx)` -> new state (or None to cut the path) is applied per
    outgoing edge; label is 'T'/'F' for edges out of tests/loop headers, else None."""
    at: dict[int, set] = {n.idx: set() for n in cfg.nodes}
    at[cfg.entry].add(init)
    work = [(cfg.entry, init)]
    while work:
        idx, st = work.pop()
        node = cfg.nodes[idx]
        for s in node.succ:
            ns = transfer(node, st, cfg.elabel.get((idx, s)), s)
            if ns is None:
                continue
            if ns not in at[s]:
                if len(at[s]) >= max_states:
                    raise AnalysisError("abstract state explosion")
                at[s].add(ns)
                work.append((s, ns))
    return at


# ---------------------------------------------------------------------- definitions / uses
def _target_names(t: ast.expr, selfname: Optional[str] = "self") -> list[tuple[str, bool]]:
    """Variables defined by an assignment target: (name, strong?).  `self.x` is tracked as 'self.x'.
    Subscript / attribute stores on a name are weak (the name keeps its old value too)."""
    out: list[tuple[str, bool]] = []
    if isinstance(t, ast.Name):
        out.append((t.id, True))
    elif isinstance(t, (ast.Tuple, ast.List)):
        for e in t.elts:
            out += _target_names(e, selfname)
    elif isinstance(t, ast.Starred):
        out += _target_names(t.value, selfname)
    elif isinstance(t, ast.Attribute):
        d = dotted(t)
        if d is not None and selfname and d.startswith(selfname + ".") and d.count(".") == 1:
            out.append((d, True))
        else:
            base = t
            while isinstance(base, (ast.Attribute, ast.Subscript)):
                base = base.value
            if isinstance(base, ast.Name):
                out.append((base.id, False))
                d2 = dotted(t.value)
                if d2 and selfname and d2.startswith(selfname + ".") and d2.count(".") == 1:
                    out.append((d2, False))
    elif isinstance(t, ast.Subscript):
        base = t.value
        d = dotted(base)
        if d and selfname and d.startswith(selfname + ".") and d.count(".") == 1:
            out.append((d, False))
        while isinstance(base, (ast.Attribute, ast.Subscript)):
            base = base.value
        if isinstance(base, ast.Name):
            out.append((base.id, False))
    return out


_MUTATING_METHODS = {"append", "extend", "insert", "pop", "remove", "clear", "update", "setdefault", "sort",
                     "reverse", "add", "discard", "popitem", "fill", "put", "itemset", "resize", "wrap",
                     "set_cell", "translate", "rotate", "center", "set_positions", "set_scaled_positions",
                     "rattle", "euler_rotate", "set_pbc", "set_atomic_numbers"}


@dataclass
class Def:
    node: int  # CFG node index
    var: str
    strong: bool
    value: Optional[ast.AST]  # RHS expression(s) the definition depends on
    kind: str  # assign, aug, for, with, param, except, call, import, walrus, def


def uses_of(expr: Optional[ast.AST], selfname: Optional[str] = "self") -> set[str]:
    """Variables read by an expression: plain names and `self.x` chains (as 'self.x', plus 'self')."""
    out: set[str] = set()
    if expr is None:
        return out
    for n in walk_no_nested(expr) if not isinstance(expr, ast.Lambda) else ast.walk(expr):
        if isinstance(n, ast.Name) and isinstance(n.ctx, ast.Load):
            out.add(n.id)
        elif isinstance(n, ast.Attribute) and isinstance(n.value, ast.Name) and selfname and n.value.id == selfname:
            out.add(f"{selfname}.{n.attr}")
        elif isinstance(n, ast.Lambda):
            for m in ast.walk(n.body):
                if isinstance(m, ast.Name):
                    out.add(m.id)
    # comprehension-local names are not uses of outer variables
    for n in ast.walk(expr):
        if isinstance(n, (ast.ListComp, ast.SetComp, ast.GeneratorExp, ast.DictComp)):
            local = set()
            for g in n.generators:
                for m in ast.walk(g.target):
                    if isinstance(m, ast.Name):
                        local.add(m.id)
            # only drop if the name is not also used outside the comprehension
            out -= {x for x in local if not _used_outside(expr, n, x)}
    return out


def _used_outside(root: ast.AST, comp: ast.AST, name: str) -> bool:
    inside = {id(m) for m in ast.walk(comp)}
    for m in ast.walk(root):
        if isinstance(m, ast.Name) and m.id == name and id(m) not in inside:
            return True
    return False


class DataFlow:
    """Reaching definitions over a CFG, with def-use queries and backward slices."""

    def __init__(self, func: ast.FunctionDef, selfname: Optional[str] = None):
        self.func = func
        a = func.args
        pos = [x.arg for x in a.posonlyargs + a.args]
        if selfname is None:
            selfname = pos[0] if pos and pos[0] in ("self", "cls") else None
        self.selfname = selfname
        self.cfg = CFG(func)
        self.defs: list[Def] = []
        self.node_defs: dict[int, list[int]] = {}
        self.node_uses: dict[int, set[str]] = {}
        self._collect()
        self._solve()

    # ------------------------------------------------------------------ gen sets
    def _add_def(self, node: int, var: str, strong: bool, value: Optional[ast.AST], kind: str) -> None:
        self.defs.append(Def(node, var, strong, value, kind))
        self.node_defs.setdefault(node, []).append(len(self.defs) - 1)

    def _collect(self) -> None:
        a = self.func.args
        for x in a.posonlyargs + a.args + a.kwonlyargs:
            self._add_def(self.cfg.entry, x.arg, True, None, "param")
        if a.vararg:
            self._add_def(self.cfg.entry, a.vararg.arg, True, None, "param")
        if a.kwarg:
            self._add_def(self.cfg.entry, a.kwarg.arg, True, None, "param")
        sn = self.selfname
        for n in self.cfg.nodes:
            st = n.ast
            uses: set[str] = set()
            if st is None:
                self.node_uses[n.idx] = uses
                continue
            if n.kind == "test":
                assert isinstance(st, ast.If)
                uses |= uses_of(st.test, sn)
                self._walrus(n.idx, st.test)
            elif n.kind == "loop":
                if isinstance(st, ast.For):
                    uses |= uses_of(st.iter, sn)
                    for var, strong in _target_names(st.target, sn):
                        self._add_def(n.idx, var, strong, st.iter, "for")
                else:
                    assert isinstance(st, ast.While)
                    uses |= uses_of(st.test, sn)
            elif n.kind == "with":
                assert isinstance(st, ast.With)
                for it in st.items:
                    uses |= uses_of(it.context_expr, sn)
                    if it.optional_vars is not None:
                        for var, strong in _target_names(it.optional_vars, sn):
                            self._add_def(n.idx, var, strong, it.context_expr, "with")
            elif n.kind == "handler":
                assert isinstance(st, ast.ExceptHandler)
                if st.name:
                    self._add_def(n.idx, st.name, True, st.type, "except")
            elif isinstance(st, ast.Assign):
                uses |= uses_of(st.value, sn)
                for t in st.targets:
                    uses |= self._target_uses(t)
                    self._assign_defs(n.idx, t, st.value)
                self._walrus(n.idx, st.value)
                self._call_effects(n.idx, st.value)
            elif isinstance(st, ast.AnnAssign):
                if st.value is not None:
                    uses |= uses_of(st.value, sn)
                    uses |= self._target_uses(st.target)
                    self._assign_defs(n.idx, st.target, st.value)
                    self._call_effects(n.idx, st.value)
            elif isinstance(st, ast.AugAssign):
                uses |= uses_of(st.value, sn)
                uses |= uses_of(st.target, sn)
                uses |= self._target_uses(st.target)
                for var, strong in _target_names(st.target, sn):
                    # x += v : new value depends on old x and v -> weak def carrying both
                    self._add_def(n.idx, var, False, st, "aug")
                if isinstance(st.target, ast.Name):
                    uses.add(st.target.id)
                self._call_effects(n.idx, st.value)
            elif isinstance(st, (ast.Import, ast.ImportFrom)):
                for al in st.names:
                    self._add_def(n.idx, (al.asname or al.name).split(".")[0], True, None, "import")
            elif isinstance(st, (ast.FunctionDef, ast.AsyncFunctionDef, ast.ClassDef)):
                self._add_def(n.idx, st.name, True, st, "def")
                # free variables of nested functions are uses at definition time (closure capture)
                for m in ast.walk(st):
                    if isinstance(m, ast.Name) and isinstance(m.ctx, ast.Load):
                        uses.add(m.id)
            elif isinstance(st, ast.Delete):
                for t in st.targets:
                    uses |= uses_of(t, sn)
                    for var, strong in _target_names(t, sn):
                        self._add_def(n.idx, var, strong, None, "del")
            elif isinstance(st, ast.Expr):
                uses |= uses_of(st.value, sn)
                self._walrus(n.idx, st.value)
                self._call_effects(n.idx, st.value)
            elif isinstance(st, (ast.Return, ast.Raise, ast.Assert)):
                for child in ast.iter_child_nodes(st):
                    uses |= uses_of(child, sn)
                    self._call_effects(n.idx, child)
            else:
                for child in ast.iter_child_nodes(st):
                    if isinstance(child, ast.expr):
                        uses |= uses_of(child, sn)
            self.node_uses[n.idx] = uses

    def _target_uses(self, t: ast.expr) -> set[str]:
        out: set[str] = set()
        for e in ast.walk(t):
            if isinstance(e, ast.Subscript):
                out |= uses_of(e.slice, self.selfname)
                out |= uses_of(e.value, self.selfname)
            elif isinstance(e, ast.Attribute) and not (
                isinstance(e.value, ast.Name) and e.value.id == self.selfname and e is t
            ):
                out |= uses_of(e.value, self.selfname)
        return out

    def _assign_defs(self, idx: int, target: ast.expr, value: ast.expr) -> None:
        # tuple-to-tuple assignment: pair up element-wise for precision
        if isinstance(target, (ast.Tuple, ast.List)) and isinstance(value, (ast.Tuple, ast.List)) and len(
            target.elts
        ) == len(value.elts) and not any(isinstance(e, ast.Starred) for e in list(target.elts) + list(value.elts)):
            for t, v in zip(target.elts, value.elts):
                self._assign_defs(idx, t, v)
            return
        for var, strong in _target_names(target, self.selfname):
            if strong:
                self._add_def(idx, var, True, value, "assign")
            else:
                # weak update x[i] = v : depends on v and the index expression
                self._add_def(idx, var, False, ast.Tuple(elts=[value, target], ctx=ast.Load()), "store")

    def _walrus(self, idx: int, expr: ast.AST) -> None:
        for m in walk_no_nested(expr):
            if isinstance(m, ast.NamedExpr) and isinstance(m.target, ast.Name):
                self._add_def(idx, m.target.id, True, m.value, "walrus")

    def _call_effects(self, idx: int, expr: Optional[ast.AST]) -> None:
        """`x.append(v)`-style calls are weak definitions of x depending on the arguments;
        `f(..., out=x)` likewise."""
        if expr is None:
            return
        for m in walk_no_nested(expr):
            if isinstance(m, ast.Call):
                if isinstance(m.func, ast.Attribute) and m.func.attr in _MUTATING_METHODS:
                    base = m.func.value
                    d = dotted(base)
                    if d and self.selfname and d.startswith(self.selfname + ".") and d.count(".") == 1:
                        self._add_def(idx, d, False, m, "call")
                    while isinstance(base, (ast.Attribute, ast.Subscript)):
                        base = base.value
                    if isinstance(base, ast.Name):
                        self._add_def(idx, base.id, False, m, "call")
                for k in m.keywords:
                    if k.arg == "out" and isinstance(k.value, ast.Name):
                        self._add_def(idx, k.value.id, False, m, "call")

    # ------------------------------------------------------------------ fixpoint
    def _solve(self) -> None:
        n = len(self.cfg.nodes)
        defs_of_var: dict[str, set[int]] = {}
        for i, d in enumerate(self.defs):
            defs_of_var.setdefault(d.var, set()).add(i)
        gen: list[set[int]] = [set() for _ in range(n)]
        kill: list[set[int]] = [set() for _ in range(n)]
        for idx, ds in self.node_defs.items():
            for i in ds:
                d = self.defs[i]
                gen[idx].add(i)
                if d.strong:
                    kill[idx] |= defs_of_var[d.var] - {i}
                    # a strong def of `self.x`... nothing else; a strong def of name kills weak defs too
        # within a node with several defs of the same var, later strong ones kill earlier
        self.IN: list[set[int]] = [set() for _ in range(n)]
        self.OUT: list[set[int]] = [set() for _ in range(n)]
        work = list(range(n))
        while work:
            i = work.pop()
            node = self.cfg.nodes[i]
            inn = set()
            for p in node.pred:
                inn |= self.OUT[p]
            out = (inn - kill[i]) | gen[i]
            # same-node strong def kills earlier same-node defs of the var
            for di in self.node_defs.get(i, []):
                d = self.defs[di]
                if d.strong:
                    out -= {j for j in self.node_defs[i] if j < di and self.defs[j].var == d.var}
            self.IN[i] = inn
            if out != self.OUT[i]:
                self.OUT[i] = out
                work.extend(node.succ)

    # ------------------------------------------------------------------ queries
    def reaching(self, node_idx: int, var: str) -> list[Def]:
        return [self.defs[i] for i in sorted(self.IN[node_idx]) if self.defs[i].var == var]

    def def_value_uses(self, d: Def) -> set[str]:
        if d.value is None:
            return set()
        u = uses_of(d.value, self.selfname)
        if d.kind == "aug":
            u |= {d.var}
        return u

    def backward_slice(self, node_idx: int, expr: ast.AST, stop_at: Optional[set[str]] = None) -> "Slice":
        """Data slice of `expr` evaluated at CFG node `node_idx`."""
        roots: set[str] = set()
        visited: set[tuple[int, str]] = set()
        def_nodes: set[int] = set()
        ext: set[str] = set()
        work: list[tuple[int, str]] = [(node_idx, v) for v in uses_of(expr, self.selfname)]
        while work:
            at, var = work.pop()
            if (at, var) in visited:
                continue
            visited.add((at, var))
            rd = self.reaching(at, var)
            if not rd:
                ext.add(var)
                # 'self.x' with no local def: also depends on self
                continue
            any_param = False
            for d in rd:
                if d.kind == "param":
                    roots.add(var)
                    any_param = True
                    continue
                def_nodes.add(d.node)
                for u in self.def_value_uses(d):
                    work.append((d.node, u))
                if not d.strong:
                    # weak def: earlier value still flows
                    work.append((d.node, var))
            if var.startswith((self.selfname or "\0") + ".") and not any(d.strong for d in rd):
                ext.add(var)
        return Slice(params=roots, external=ext, def_nodes=def_nodes, visited={v for _, v in visited})

    def expr_depends_on(self, node_idx: int, expr: ast.AST, name: str) -> bool:
        s = self.backward_slice(node_idx, expr)
        return name in s.params or name in s.external or name in s.visited and name in s.params

    def single_def(self, node_idx: int, var: str) -> Optional[Def]:
        rd = self.reaching(node_idx, var)
        if len(rd) == 1 and rd[0].strong:
            return rd[0]
        return None

    def loop_carried(self, header: int, var: str) -> list[tuple[Def, int]]:
        """Definitions of `var` inside loop `header` that reach a use of `var` inside the loop via the
        back edge: returns (def, using node)."""
        body = self.cfg.loop_body_nodes(header)
        out = []
        # defs that reach the loop header from inside the body (i.e. through the back edge)
        through_back = {i for i in self.IN[header] if self.defs[i].node in body and self.defs[i].var == var}
        if not through_back:
            return out
        for nidx in sorted(body | {header}):
            if var in self.node_uses.get(nidx, set()):
                for i in self.IN[nidx]:
                    if i in through_back:
                        # is the def reaching this use along a path that passes the header?  A def placed
                        # after the use in the body can only reach it via the back edge; a def placed
                        # before may reach it directly.  Check existence of a path def -> header -> use
                        # with no strong redefinition: the reaching-defs solution already guarantees
                        # the def survives to header (through_back) and IN[nidx] contains it.
                        if self._reaches_from_header(header, nidx, i):
                            out.append((self.defs[i], nidx))
        return out

    def _reaches_from_header(self, header: int, use: int, di: int) -> bool:
        """Is there a path header -> ... -> use inside the loop on which `var` is not strongly
        redefined (the read in `use` happens before any definition made by `use` itself)?"""
        var = self.defs[di].var
        seen: set[int] = set()
        stack = [s for s in self.cfg.nodes[header].succ if header in self.cfg.nodes[s].loops]
        if use == header:
            return True
        while stack:
            n = stack.pop()
            if n in seen:
                continue
            seen.add(n)
            if n == use:
                return True
            if n == header:
                continue
            if any(self.defs[j].var == var and self.defs[j].strong for j in self.node_defs.get(n, [])):
                continue
            for s2 in self.cfg.nodes[n].succ:
                if header in self.cfg.nodes[s2].loops:
                    stack.append(s2)
        return False


@dataclass
class Slice:
    params: set[str]
    external: set[str]
    def_nodes: set[int]
    visited: set[str]

    def depends_on(self, name: str) -> bool:
        return name in self.params or name in self.external


def function_dataflow(func: ast.FunctionDef) -> DataFlow:
    return DataFlow(func)
