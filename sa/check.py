"""CLI: python3 -m sa.check <ID>|all [--tier quick|thorough] [--replay path]

exit 0: every rule instance holds (known findings print KNOWN-FINDING lines)
exit 1: a violation not listed in known_findings.json (VIOLATION line printed)
exit 2: ANALYSIS-ERROR (anchor vanished, unsupported construct, instance count below floor)
"""
from __future__ import annotations

import argparse
import importlib
import json
import os
import sys
import traceback

from .model import AnalysisError, Repo
from .report import Ctx


def run_one(prop: str, tier: str, repo=None) -> int:
    try:
        mod = importlib.import_module(f"sa.checks.{prop.lower()}")
    except ModuleNotFoundError:
        print(f"ANALYSIS-ERROR property={prop}: no check module")
        return 2
    try:
        ctx = Ctx(prop, tier, repo)
        try:
            mod.run(ctx)
        except AnalysisError as e:
            # an anchor was lost part-way: if a rule already found a violation the run is decided (exit 1);
            # otherwise the analysis is inconclusive (exit 2)
            if not any(i.verdict == "violation" for i in ctx.instances):
                raise
            ctx.info("ANALYSIS", prop, "-", f"analysis stopped early after reporting violations: {e}")
        rc = ctx.finish()
        if tier == "thorough" and rc == 0:
            from . import selftest

            rc = selftest.run_for(prop)
        return rc
    except AnalysisError as e:
        print(f"ANALYSIS-ERROR property={prop}: {e}")
        return 2
    except Exception:
        print(f"ANALYSIS-ERROR property={prop}: internal error\n{traceback.format_exc()}")
        return 2


def main(argv=None) -> int:
    ap = argparse.ArgumentParser()
    ap.add_argument("prop")
    ap.add_argument("--tier", default=os.environ.get("VERIF_TIER", "quick"), choices=["quick", "thorough"])
    ap.add_argument("--replay", default=None)
    a = ap.parse_args(argv)
    if a.replay:
        try:
            info = json.load(open(a.replay))
            print(f"REPLAY {info.get('key')}: {info.get('detail')}")
            a.prop = info.get("property", a.prop)
        except Exception as e:
            print(f"ANALYSIS-ERROR cannot read replay file: {e}")
            return 2
    if a.prop == "all":
        from .registry import CLAIMED

        repo = Repo.load()
        worst = 0
        for p in CLAIMED:
            rc = run_one(p, a.tier, repo)
            worst = max(worst, rc)
        return worst
    return run_one(a.prop.upper(), a.tier)


if __name__ == "__main__":
    sys.exit(main())
