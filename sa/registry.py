"""Which properties are claimed, with the manifest texts.  MANIFEST.json is generated from this table
by `python3 -m sa.manifest` so that it is valid at every commit."""

# id -> (technique, level text, level note)
CHECKS = {
    "C34": (
        "path-sensitive typestate over the CFG of config.set._assign + inverse-effect table for __exit__ + "
        "who-may-write scan",
        "Decides the full record/undo protocol structurally: every store into the config dict is preceded on "
        "every path by an undo record (or recording is provably off below a recorded insert), the old value is "
        "read before the overwrite, the op literals produced equal those undone, undo runs in reverse without "
        "early exit, and nothing else in the package writes the config dict. This quantifies over all nestings "
        "and exception paths because it is a statement about the program, not about sampled runs.",
        "Trusts dask.config.canonical_name/update and Python's context-manager protocol.",
    ),
}

NOT_APPLICABLE = {
    "C25": "consistency of each parametrization's real- and reciprocal-space forms is an analytic Fourier-"
           "transform identity between tabulated-coefficient kernels plus monotonicity over table data; no "
           "structural necessary condition is visible in the shape of the code, and a numerical comparison would "
           "be a runtime test, not static analysis",
}

CLAIMED = sorted(CHECKS)
