"""Which properties are claimed, with the manifest texts.  MANIFEST.json is generated from this table
by `python3 -m sa.manifest` so that it is valid at every commit."""

# id -> (technique, level text, level note)
CHECKS = {
    "C34": (
        "path-sensitive typestate over the CFG of config.set._assign + inverse-effect table for __exit__ + "
        "who-may-write scan",
        "Decides the full record/undo protocol structurally: every store into the config dict is preceded on "
        "every path by an undo record (or recording is provably off below a recorded insert), the old value is "
        "read before the overwrite, the op literals produced equal those undone, undo runs in reverse without "
        "early exit, and nothing else in the package writes the config dict. This quantifies over all nestings "
        "and exception paths because it is a statement about the program, not about sampled runs.",
        "Trusts dask.config.canonical_name/update and Python's context-manager protocol.",
    ),
}

CHECKS["C33"] = (
    "def-use slice of get_conversion_factor's result + term normal form (ratio of one factor table) + "
    "writer/reader table agreement between unit categories, validate_units aliases and the factor table",
    "Decides three necessary conditions of compose/invert for every pair of units at once: the same-category "
    "factor is data-dependent on both units and has the normal form table[canon(new)]/table[canon(old)]; every "
    "unit of a convertible category canonicalises to a key of the factor table (alias comparisons are live); "
    "LinearAxis.convert_units scales sampling and offset by the factor from the receiver's own units.",
    "Trusts float arithmetic; the cross-category branch (1/Å -> mrad) is outside the property.",
)

CHECKS["C02"] = (
    "reaching definitions over the CFG: loop-carried flow dependence of the wave state across the "
    "potential-configuration loop; fresh-copy requirement on the killing definition",
    "Decides the clause 'every configuration starts from the same incident wave' for all potentials, "
    "detectors and chunkings at once.",
    "Numerical equality of the multislice results is not decided.",
)

NOT_APPLICABLE = {
    "C25": "consistency of each parametrization's real- and reciprocal-space forms is an analytic Fourier-"
           "transform identity between tabulated-coefficient kernels plus monotonicity over table data; no "
           "structural necessary condition is visible in the shape of the code, and a numerical comparison would "
           "be a runtime test, not static analysis",
}

CLAIMED = sorted(CHECKS)
