"""Which properties are claimed, with the manifest texts.  MANIFEST.json is generated from this table
by `python3 -m sa.manifest` so that it is valid at every commit."""

# id -> (technique, level text, level note)
CHECKS = {
    "C34": (
        "path-sensitive typestate over the CFG of config.set._assign + inverse-effect table for __exit__ + "
        "who-may-write scan",
        "Decides the full record/undo protocol structurally: every store into the config dict is preceded on "
        "every path by an undo record (or recording is provably off below a recorded insert), the old value is "
        "read before the overwrite, the op literals produced equal those undone, undo runs in reverse without "
        "early exit, and nothing else in the package writes the config dict. This quantifies over all nestings "
        "and exception paths because it is a statement about the program, not about sampled runs.",
        "Trusts dask.config.canonical_name/update and Python's context-manager protocol.",
    ),
}

CHECKS["C33"] = (
    "def-use slice of get_conversion_factor's result + term normal form (ratio of one factor table) + "
    "writer/reader table agreement between unit categories, validate_units aliases and the factor table",
    "Decides three necessary conditions of compose/invert for every pair of units at once: the same-category "
    "factor is data-dependent on both units and has the normal form table[canon(new)]/table[canon(old)]; every "
    "unit of a convertible category canonicalises to a key of the factor table (alias comparisons are live); "
    "LinearAxis.convert_units scales sampling and offset by the factor from the receiver's own units.",
    "Trusts float arithmetic; the cross-category branch (1/Å -> mrad) is outside the property.",
)

CHECKS["C02"] = (
    "reaching definitions over the CFG: loop-carried flow dependence of the wave state across the "
    "potential-configuration loop; fresh-copy requirement on the killing definition; "
    "loop-nesting and path analysis of the counter an ensemble mean is normalised with",
    "Decides the clause 'every configuration starts from the same incident wave' for all potentials, "
    "detectors and chunkings at once, plus the seed-partition clauses (see c02.py).",
    "Numerical equality of the multislice results is not decided.",
)

CHECKS["C01"] = (
    "lazy/eager twin comparator (same callee, term-equal arguments modulo dask-only keywords) over every "
    "`if lazy` site of the package; class-contract analysis of objects rebuilt in dask blocks (C3 MRO, executed "
    "constructor chain, getattr-resolvability of copied parameters); loop-carried reaching definitions; "
    "CFG typestate of the cached FFT plan (bound to the current array or not) shared with C38",
    "Decides necessary conditions of 'same values, both succeed or fail together' for every input at once: all "
    "lazy/eager twins apply the same function to the same arguments; every constructor parameter that the block "
    "reconstruction reads with getattr exists on instances of every concrete class and every attribute the "
    "partition machinery reads is created by an executed constructor; no wave state leaks between potential "
    "configurations; apply_transform's block function and eager arm call the same transform method.",
    "Numerical equality of FFT pipelines and scheduler independence are not decided. Trusts dask's blockwise semantics.",
)

CHECKS["C19"] = (
    "partition-completeness analysis (every constructor parameter reaches the rebuilt block or is in a reasoned "
    "absorbed table) + same-slice rule over partition loops (term-equal slice bounds) + block-order pairing; "
    "origin analysis (reaching definitions) of the seeds and count a block is rebuilt from",
    "Decides that blocks are cut with exactly the loop's own range from every parallel sequence (values/weights, "
    "seeds, trajectories, positions, axis metadata per dimension), that lazy and eager arms iterate the same ranges, "
    "and that no constructor parameter is silently defaulted when a block is rebuilt.",
    "Trusts dask's concatenation order; GridScan/LineScan block geometry is decided under C20.",
)

CHECKS["C07"] = (
    "path counting over the exit-plane arms of multislice_and_detect (exactly one counter increment per exit plane, "
    "index computed -> update -> increment order), loop-carried reaching definitions, term checks of "
    "_validate_exit_planes and exit_thicknesses, three-site agreement on the entrance-plane convention",
    "Decides the bookkeeping clause of thickness series: every exit plane (including the entrance plane) gets its own "
    "slot, in order, per configuration; the last exit plane is the last slice; the thickness axis is the cumulative "
    "thickness with the entrance plane at 0.",
    "Equality with truncated simulations is numerical and not decided.",
)

CHECKS["C29"] = (
    "operator-table rules (reflected-dunder aliasing, dunder-name dispatch), CFG dominance of the base-axis guard, "
    "executed-constructor-chain analysis, lock-step comparison of array-op axis expressions with metadata edits, "
    "lazy/eager twin comparator",
    "Decides that no structural operation can edit the array along one axis and the metadata along another, that "
    "base axes cannot be reduced/indexed/squeezed, that every array object validates one metadata entry per "
    "dimension at construction, and that arithmetic dunders dispatch to the operator they name.",
    "Trusts numpy/dask semantics of stack/concatenate/moveaxis/squeeze.",
)

CHECKS["C21"] = (
    "straight-line term evaluation of Aberrations._evaluate_from_angular_grid per guard arm into the polynomial "
    "normal form; symbol-name <-> (n, m) naming rule; guard-tuple cover; alias-table injectivity; parameter binding",
    "Decides that every polar coefficient Cnm enters chi exactly once as Cnm*alpha^(n+1)/(n+1)*cos(m(phi-phinm)), "
    "scaled by 2pi/lambda inside complex_exponential(-.), for all 25 symbols; that guards cover what they guard; "
    "defocus = -C10 both ways; aliases address the same coefficients; same rule for the envelope derivative tables.",
    "Trusts complex_exponential(x) = exp(ix) and _unpack_distributions' argument order.",
)

CHECKS["C22"] = (
    "harmonic-component abstract domain: each Cartesian component folded to C*(p cos m phi + q sin m phi), each "
    "inverse to sigma*sqrt(X^2+Y^2), tau*arctan2(U,V)/m; round-trip identity checked per pair; key-set agreement; "
    "freshness (reaching definitions) of the returned mapping",
    "Decides chi-equivalence of polar->cartesian->polar for all five coefficient pairs and two scalars, for every "
    "coefficient value and angle.",
    "Constant folding of the C34b prefactor uses float arithmetic with tolerance 1e-9.",
)

CHECKS["C23"] = (
    "interval / sign abstract interpretation with flow-sensitive names; term normal form of the soft-aperture edge; "
    "zero-at-origin analysis of envelope exponents; path enumeration of the CTF composition",
    "Decides that apertures lie in [0,1] with the stated half-pixel edge, envelopes lie in (0,1] for non-negative "
    "spread and equal 1 at alpha=0, and that every CTF path without a post-filter is a product of unit-modulus, "
    "<=1 and aperture factors.",
    "Assumes angular_spread >= 0 (the property's hypothesis) and alpha >= 0 in radians; Wiener/flip-phase "
    "post-filter paths are not decided.",
)

CHECKS["C08"] = (
    "def-use analysis of the scatter indices (every index reduced modulo its own axis), term normal form of the "
    "bilinear weights (partition of unity), axis-pair agreement between repetitions and grid quantities; "
    "resolved-callee rule for ndimage filters on the periodic grid (mode='wrap' on every reaching definition)",
    "Decides necessary conditions of translation/repetition covariance: periodic wrap on the right axis in both "
    "arms, weights summing identically to 1, tiling/extent/slice-thickness repetition along matching axes.",
    "The covariance equalities themselves (numerical) and finite projection are not decided.",
)
CHECKS["C09"] = (
    "path-sensitive guard analysis of _validate_slice_thickness; single-digitize / label-table rule for "
    "SliceIndexedAtoms; half-open membership comparison for SlicedAtoms",
    "Decides the slicing clauses: thicknesses are checked to sum to the cell height on every accepting path, each "
    "atom receives exactly one slice label from one digitize over all atoms, slice membership is half-open.",
    "Additivity of potentials and independence from slice thickness are numerical; the 1e-12 boundary nudge is "
    "deliberately not armed (frozen fragment).",
)
CHECKS["C10"] = (
    "def-use slices: store-index dependence on the block index in block loops (scatter rule), dependence of yielded "
    "slices / loop bounds on (first_slice, last_slice) for every generate_slices implementation, window-shape rule; "
    "absolute slice-index polynomials of every per-slice table read by the slice generators",
    "Decides that eager builds scatter every ensemble member to its own index, that every slice generator honours its "
    "window at both ends, and that lazy and eager builds allocate the window's shape.",
    "May-dependence only: an off-by-one inside a window is not decided. One recorded finding (GPAW magnetics).",
)
CHECKS["C11"] = (
    "memo-key completeness: for every memo pattern (dict try/except KeyError, single-slot key compare, keyless) the "
    "access paths that flow into the cached value must flow into the key unless immutable for the cache's lifetime",
    "Decides that no cached potential ingredient can survive a change of gpts/sampling/device: all memoised values are "
    "keyed by everything they depend on.",
    "Ambient configuration read inside cached values and mutation through external aliases are not decided.",
)
CHECKS["C17"] = (
    "abstract interpretation of Grid.__init__ and the extent/gpts/sampling setters over every configuration "
    "(defined fields x lock flags x None) and every acyclic path; term normal forms of the _adjust_* helpers",
    "Decides consistency after any single assignment from any consistent state (hence by induction after any history): "
    "non-raising paths end consistent with the right endpoint formula, raising paths leave the fields untouched, "
    "locked gpts/sampling assignments raise before any store; reciprocal sampling is 1/(gpts*sampling).",
    "Float rounding inside ceil is not decided; re-fitting a locked sampling is upstream semantics (reported as info).",
)
CHECKS["C18"] = (
    "CFG dominance of the sum guard over every producing arm of validate_chunks; term identities for "
    "equal_sized_chunks and chunk_ranges; typestate over _auto_chunks' growth loop",
    "Decides that every validated chunking passed the sum==shape guard, equal-sized chunks differ by at most one and "
    "sum to n as a term identity, chunk ranges are contiguous (start_{i+1} = stop_i), and every growth step of "
    "_auto_chunks is re-tested against the element limit before the loop can exit.",
    "That _auto_chunks finds a within-limit chunking whenever one exists is not decided.",
)
CHECKS["C20"] = (
    "term normal forms of scan geometry (linspace arguments, sampling vs endpoint convention, per-block start/end in "
    "_partition_args, ScanAxis offset/sampling, shift-kernel phase and position scaling)",
    "Decides that the positions a scan yields, the sampling it reports, the blocks it is cut into and the axis "
    "metadata are the same arithmetic progression, and that the probe shift kernel is exp(-2 pi i k.r/sampling).",
    "Numerical equality of shifted probes is not decided.",
)
CHECKS["C24"] = (
    "rational-function-with-radicals normal form of the energy relations against the property's formulas; sign "
    "domain; CFG guard on energy > 0",
    "Decides that wavelength, relativistic mass, and interaction parameter are exactly the stated closed forms in "
    "h, c, m_e, e for every energy, that they are positive on E > 0, that non-positive energies raise, and that "
    "angular sampling is reciprocal sampling * wavelength * 1e3 at every definition site.",
    "Monotonic decrease follows mathematically from the verified closed form (not machine-checked); ase unit "
    "definitions are trusted structurally.",
)
CHECKS["C30"] = (
    "writer/reader table agreement: type tags, metadata keys written vs popped, store-key prefixes, kwargs packing "
    "pairs, axis-class registry and array-class registry resolvability",
    "Decides that everything the zarr writer emits has a matching reader entry: tags, keys, axis classes and array "
    "classes. Five array classes that cannot be resolved by the reader are recorded as known findings.",
    "Array values/dtype through zarr/dask are not decided.",
)
CHECKS["C32"] = (
    "ownership/effect analysis: borrowed-vs-fresh abstract values over reaching definitions, per-function "
    "returns/mutates summaries to a fixed point over the package call graph, class-hierarchy resolution of methods; "
    "receiver-write scan with alias tracking for measurement methods",
    "Decides that no in-place ASE operation, positions/cell store or mutating callee can reach an Atoms object that "
    "may be the caller's (parameter, stored without copy, or exposed by another object), and that measurement "
    "methods never write the receiver's array or metadata (directly, via alias, dict mutators or out=).",
    "Assumes ase copy/__getitem__ semantics; third-party callees are assumed not to mutate their arguments.",
)
CHECKS["C35"] = (
    "axis-class registry resolvability for both dict readers, dataclass-field rules, term form of "
    "LinearAxis.coordinates, structural rules for OrdinalAxis slicing/concatenation",
    "Decides that every axis class in the package can be rebuilt by the dict readers, that only declared dataclass "
    "fields are serialised, that ordinal slicing/concatenation acts on `values` only and in order, and that linear "
    "coordinates are offset + i*sampling.",
    "Value equality after the round trip (safe_equality) is not decided.",
)
CHECKS["C36"] = (
    "structural/term rules for distributions: stored-argument identity, negation, same-slice division, "
    "linspace/gaussian closed forms and normalisation arms",
    "Decides that uniform/gaussian distributions are built from the advertised closed forms, negation touches values "
    "only, division slices values and weights identically, and multidimensional accessors read matching components.",
    "numpy numerics and the outer-product ordering are not decided.",
)

CHECKS["C06"] = (
    "complex-taint abstract domain over reaching definitions for every sqrt(sum(x**2)) normalisation in the package; "
    "term normal form of the PRISM position phase per scan arm; angular-grid convention agreement; contraction axes",
    "Decides necessary conditions for PRISM = multislice with any CTF: coefficient norms are taken of |x|^2 wherever "
    "x is complex, position coefficients are exp(-2 pi i (x kx + y ky)) in both arms with matching axes, CTF "
    "coefficients are evaluated at (|k| lambda, arctan2(ky, kx)) like the real-space probe, and the reduction "
    "contracts the plane-wave axis.",
    "Interpolation/window cropping equality and lazy reduction schemes are not decided.",
)
CHECKS["C12"] = (
    "term normal forms (rational functions) of bin index / published sampling per detector subclass; argument-flow "
    "agreement detector -> binning function in lazy and eager arms; comparison-operator agreement of the mask builders; "
    "float floor-division rule on the bin-index computation shared with C13",
    "Decides that the radial sampling and offset every radial detector publishes equal the width and start of the bins "
    "it actually fills, that limits reach the mask/bin builders unchanged, and that both builders use the same "
    "half-open [inner, outer) convention.",
    "Equality of integrated intensities between detectors is numerical and not decided.",
)
CHECKS["C13"] = (
    "term check of each axis' index computation against the offset/sampling its own axis metadata publishes; "
    "alpha-equivalence of the radial and azimuthal arms under the axis renaming; "
    "float floor-division rule on the bin-index computation (divisor typing)",
    "Decides that limits are converted to bin indices with the sampling and offset of the axis they address, for both "
    "axes, with one limits pair per bound.",
    "int() truncation at edge-aligned limits is value-dependent and not decided.",
)
CHECKS["C14"] = (
    "array-layout typestate {FFT_ORDER, CENTERED} evaluated under every flag valuation over all fftshift/ifftshift "
    "uses and every DiffractionPatterns construction; parity domain for _ensure_parity; strictness/orientation rules "
    "for bandlimit/block_direct; "
    "exact evaluation of the limit properties per parity of the pixel count",
    "Decides that no shift is applied to an array already in the target layout, that every returned diffraction "
    "pattern carries the flag matching its array, that angle-limited gpts have the requested parity on all paths, and "
    "that block_direct masks strictly inside the radius.",
    "Numerical crop equality and the value of the effective blocking radius are not decided.",
)
CHECKS["C15"] = (
    "guarded-effect mirror (alpha-equivalence) check of _fft_interpolation_masks_1d; term normal forms of the "
    "normalisation factors and of the shift-kernel phase; lazy/eager twin of Waves.downsample; "
    "dtype-origin analysis of casts applied after the inverse transform",
    "Decides the structural symmetry needed for up-then-down = identity, the 'values' factor new/old size with sizes "
    "read at the right program points, untouched arrays for intensity/amplitude, and the shift phase -2 pi k x.",
    "The numerical identities are not decided.",
)
CHECKS["C16"] = (
    "term normal form with registered sum reductions for the bilinear renormalisation; folding of sigma/depth per "
    "axis kind; lazy/eager twin with mode and depth rules",
    "Decides that interpolated patterns are renormalised to the sum of exactly the array that was interpolated over "
    "the same axes, that the source-size filter only acts on scan axes with sigma/sampling, and that lazy map_overlap "
    "and eager filter agree including mode='wrap' and a sufficient overlap depth.",
    "Images.interpolate identities are not decided.",
)
CHECKS["C26"] = (
    "term comparison of the eigen-path and expm-path phase scalars; similarity-transform rule for the eigenvector "
    "matrix; read-only-view rule for pandas-derived arrays; lazy/eager twin comparator",
    "Decides that both Bloch-wave paths exponentiate the same scalar multiple of the same matrix and apply the same "
    "M..M^-1 similarity, that in-place scaled arrays are writable copies, and that lazy and eager arms call the same "
    "kernels with the same arguments.",
    "Sum of intensities = 1 and the zero-thickness limit are numerical (unitarity of eigh) and not decided.",
)
CHECKS["C27"] = (
    "symbolic shape (rank) domain per centering arm; parity-class evaluation of each arm against the International "
    "Tables condition; agreement of the centering translation table with the masks; mask application dataflow; "
    "abstract interpretation that follows table-driven branch selection",
    "Decides the centering clause: every arm returns a rank-1 mask of the right condition, the translation table "
    "allows exactly the reflections the masks keep, and StructureFactor applies the mask of the resolved centering.",
    "Friedel symmetry, realness of the reconstructed potential and lattice-translation invariance are numerical sums "
    "and not decided.",
)
CHECKS["C28"] = (
    "symbolic cardinality/shape domain for scan positions; factor rule on the normal form of every update increment; "
    "structural form of the Fourier projection and its error term; pairing dataflow of the operator pipeline; "
    "linear forms with ROUND / FLOORDIV atoms for the window origin",
    "Decides that J explicit positions stay J positions, that every r-PIE style increment has the exit-wave "
    "difference as a factor (fixed point), that the Fourier projection keeps the phase and replaces the amplitude, "
    "and that positions/patterns are read and written with the same index.",
    "Numerical idempotence and the position-correction callable are not decided.",
)
CHECKS["C38"] = (
    "path-sensitive copy-guard typestate over the FFTW dispatchers; flag-forwarding agreement; array ownership "
    "(fresh and dead-after) at every literal overwrite_x/in_place=True site, followed through closures and callers; "
    "exact table for get_dtype",
    "Decides the ownership clause of backend independence: an FFT may only overwrite an array the caller owns and no "
    "longer reads, on every path and at every call site, so switching backend/overwrite mode cannot change inputs.",
    "Numerical agreement between backends and precisions is not decided.",
)
CHECKS["C31"] = (
    "def-use slices of the Poisson rate and the returned counts (clip at zero, casts only, rate = signal x dose per "
    "arm); seed-flow rule for every generator constructed in the block function; block-seed rule",
    "Decides non-negativity/wholeness and the dose x signal rate structurally, reproducibility (every generator seeded "
    "from self.seeds, no global state), and detects block-invariant seeding of per-block generators (recorded as a "
    "known finding).",
    "Statistical independence and the expectation value are properties of numpy's generators and not decided.",
)
CHECKS["C40"] = (
    "array-layout typestate shared with C14, evaluated end-to-end through the coordinate properties for every "
    "(flag, units); coordinate-axis pairing rules of _com; "
    "exact evaluation of the limit properties per parity of the pixel count",
    "Decides the coordinate clause: the coordinates that weight the intensities are in the same layout as the array "
    "for both units and both flag values, x weights rows and y weights columns.",
    "_integrate_gradient_2d exactness and the normalisation of the moment are numerical and not decided.",
)

CHECKS["C04"] = (
    "abstract interpretation in a modulus/interval/field domain (=1, <=1, [0,1], real/complex) over the propagator, "
    "aperture, tilt and transmission kernels; oddness of every phase in the thickness; dataflow of the kernel into "
    "the convolution",
    "Decides that every Fourier-space propagation kernel has modulus <= 1 on every path (=1 times an aperture in "
    "[0,1]), that the unfiltered transmission function of a real potential has modulus 1, and that kernel(-dz) is the "
    "conjugate of kernel(dz). With Parseval this is the never-increases and reversibility clause for propagation. "
    "The band-limited transmission step is not bounded by 1 and is recorded as a known finding.",
    "Trusts unitarity of the FFT (Parseval) and float rounding.",
)
CHECKS["C05"] = (
    "term normal form of the plane-wave fill value; post-dominance of normalize over amplitude-changing transforms in "
    "Probe._calculate_array; complex-safe norm form and FFT typestate of _WavesNormalization",
    "Decides that built plane waves carry 1/N (normalised) or 1 (not), that every probe passes a reciprocal-space "
    "normalisation after the last amplitude-changing transform on every path, and that the normalisation divides by "
    "sqrt(sum |a|^2) over the two base axes in reciprocal space.",
    "Numerical unit norm and zero-intensity waves are not decided.",
)
CHECKS["C37"] = (
    "exact symmetry check of the nine literal coefficient tables; axis/shift/scale agreement of the CPU and GPU "
    "stencil kernels (same vector along both axes, second difference along axis a scaled by 1/sampling[a]^2); "
    "value-preserving origin analysis of the accuracy order from the constructor to the coefficient table (fixpoint over callers)",
    "Decides the stencil clauses: every table is symmetric (real eigenvalue on every discrete plane wave, necessary "
    "for intensity conservation in vacuum), both kernels apply it along exactly the two base axes with the centre at "
    "the right offset and each axis scaled by its own sampling.",
    "The eigenvalue identity, vacuum intensity and lazy/eager equality are numerical; accuracy moment conditions are "
    "computed and reported as information only.",
)
CHECKS["C39"] = (
    "term normal form of the tilt phase against the shift-kernel phase with x = thickness*tan(tilt/1000) per axis; "
    "axis pairing; same-function rule for base tilt and tilt axes; tilt-axis metadata mapping; "
    "cache-key coverage with interprocedural reads and element precision for collections",
    "Decides that the tilt phase is exactly the lateral-shift phase for dz*tan(t) along the matching axis, has unit "
    "modulus, and that per-axis and 2D tilt descriptions reach the same kernel with the same components.",
    "Numerical equality and sub-pixel interpolation are not decided.",
)

CHECKS["C03"] = (
    "table/order agreement between each ensemble's `distributions` tuple, the argument order its kernel passes to "
    "_unpack_distributions, and the order of its ensemble-axes metadata (recursively through CTF components); "
    "structural rules for _unpack_distributions and the rebuild key/value order; "
    "symbolic path execution deciding that distribution kernels are linear in the ensemble weights",
    "Decides that array axes, ensemble shape, partition order, rebuild keys and axis metadata of every "
    "distribution-parametrised ensemble follow one order, that axis metadata lists the distribution's own values in "
    "order, that the i-th distribution occupies axis i with aligned values and weights (weights multiplied), and "
    "that blocks are rebuilt from zip(keys, slices) of the same dict, that every kernel that unpacks distributions is "
    "linear in their weights, and that sign-flipping aliases keep weights and order.",
    "That member i equals the scalar run numerically is not decided; SpatialEnvelope discarding its weights is recorded "
    "as a known finding.",
)

CHECKS["C25"] = (
    "alias/ownership rule over reaching definitions for the stored coefficient tables in every scaled_parameters "
    "accessor; key-set agreement between each parametrization's function table and its scaled-parameter table",
    "Claims two structural necessary conditions only: computing one form of an element never modifies the stored "
    "table the other forms are computed from (an in-place update is applied to a private copy, never to an alias of "
    "self.parameters[...]), and every offered function has scaled parameters. The analytic content of the property "
    "is NOT decided by this check.",
    "That the real-space and reciprocal-space kernels are a Fourier pair, positivity and monotonicity are analytic / "
    "numerical and not decidable statically; see DESIGN.md section 3.",
)

NOT_APPLICABLE = {}

CLAIMED = sorted(CHECKS)
